#!/usr/bin/env python3
"""verif.py <Cxx> <quick|thorough> | build | replay <Cxx> <file>

Builds the sanitizer libraries from $VERIF_REPO (default /repo) current working tree, builds h4mc,
runs the property's tier, matches violations against known_findings.json, writes evidence, and
exits 0 / 1 (VIOLATION line) / 2 (harness error).
"""
import fcntl
import glob
import hashlib
import json
import os
import re
import shutil
import subprocess
import sys
import time

ROOT = os.path.dirname(os.path.abspath(__file__))
REPO = os.environ.get("VERIF_REPO", "/repo")
BUILD = os.environ.get("VERIF_BUILD", os.path.join(ROOT, "build"))
LIB = os.path.join(BUILD, "lib")
OBJ = os.path.join(BUILD, "obj")
H4MC = os.path.join(BUILD, "h4mc")
GUARD = "HDF4_VERIF"

CFLAGS = ("-O1 -g -fno-omit-frame-pointer -fsanitize=address -fsanitize-recover=address "
          "-Wno-error -w -D%s=1" % GUARD)
WRAPS = ["fopen", "fclose", "fread", "fwrite", "fseek", "ftell", "fflush", "stat", "remove", "rename"]

LEVELS = {
    "C01": "model_checking", "C02": "model_checking", "C03": "exploration", "C04": "exploration",
    "C05": "exploration", "C06": "exploration", "C07": "model_checking", "C08": "model_checking",
    "C09": "exploration", "C10": "model_checking", "C11": "model_checking", "C12": "model_checking",
    "C13": "model_checking", "C14": "model_checking", "C15": "exploration", "C16": "fault_enumeration",
    "C17": "fault_enumeration", "C18": "exploration", "C19": "exploration", "C20": "exploration",
}


def log(*a):
    print(*a, file=sys.stderr, flush=True)


def run(cmd, **kw):
    return subprocess.run(cmd, shell=isinstance(cmd, str), **kw)


def build(tools=False):
    """(Re)build sanitizer libs + h4mc from the current working tree of REPO. Serialised by flock."""
    os.makedirs(BUILD, exist_ok=True)
    with open(os.path.join(BUILD, ".lock"), "w") as lk:
        fcntl.flock(lk, fcntl.LOCK_EX)
        t0 = time.time()
        cache = os.path.join(LIB, "CMakeCache.txt")
        need_cfg = not os.path.exists(os.path.join(LIB, "build.ninja"))
        if not need_cfg:
            with open(cache) as f:
                txt = f.read()
            m = re.search(r"CMAKE_HOME_DIRECTORY:INTERNAL=(.*)", txt)
            fl = re.search(r"CMAKE_C_FLAGS:STRING=(.*)", txt)
            if not m or os.path.realpath(m.group(1)) != os.path.realpath(REPO) or not fl or fl.group(1).strip() != CFLAGS:
                shutil.rmtree(LIB)
                need_cfg = True
        if need_cfg:
            cmd = ["cmake", "-S", REPO, "-B", LIB, "-G", "Ninja", "-DCMAKE_BUILD_TYPE=None",
                   "-DCMAKE_C_COMPILER=gcc", "-DCMAKE_C_FLAGS=" + CFLAGS,
                   "-DBUILD_SHARED_LIBS=OFF", "-DBUILD_STATIC_LIBS=ON", "-DHDF4_BUILD_STATIC_TOOLS=ON",
                   "-DBUILD_TESTING=OFF", "-DHDF4_BUILD_EXAMPLES=OFF", "-DHDF4_BUILD_TOOLS=ON",
                   "-DHDF4_BUILD_UTILS=OFF", "-DHDF4_NO_PACKAGES=ON", "-DHDF4_BUILD_FORTRAN=OFF",
                   "-DHDF4_BUILD_JAVA=OFF"]
            r = run(cmd, stdout=subprocess.PIPE, stderr=subprocess.STDOUT, text=True)
            if r.returncode != 0:
                log(r.stdout[-4000:])
                raise SystemExit("HARNESS-ERROR: cmake configure failed")
        targets = ["hdf-static", "mfhdf-static"]
        if tools:
            targets += ["hdiff", "hrepack", "hdp", "hdfimport"]
        r = run(["ninja", "-C", LIB] + targets, stdout=subprocess.PIPE, stderr=subprocess.STDOUT, text=True)
        if r.returncode != 0:
            log(r.stdout[-6000:])
            raise SystemExit("HARNESS-ERROR: library build failed")
        # engine + harness
        os.makedirs(OBJ, exist_ok=True)
        srcs = sorted(glob.glob(os.path.join(ROOT, "engine", "*.c")) + glob.glob(os.path.join(ROOT, "harness", "*.c")))
        inc = ["-I" + os.path.join(REPO, "hdf", "src"), "-I" + os.path.join(REPO, "mfhdf", "src"), "-I" + LIB,
               "-I" + os.path.join(ROOT, "engine")]
        lines = ["cflags = %s -Wall -Wno-unused-function -Wno-unused-variable %s" % (CFLAGS.replace(" -w", ""), " ".join(inc)),
                 "rule cc", "  command = gcc $cflags -MD -MF $out.d -c $in -o $out", "  depfile = $out.d", "  deps = gcc",
                 "rule link",
                 "  command = gcc -fsanitize=address -o $out $in %s -lm -ljpeg -lz -lpthread" %
                 " ".join("-Wl,--wrap=" + w for w in WRAPS)]
        objs = []
        for s in srcs:
            o = os.path.join(OBJ, os.path.basename(s)[:-2] + ".o")
            objs.append(o)
            lines.append("build %s: cc %s" % (o, s))
        libs = [os.path.join(LIB, "bin", "libmfhdf.a"), os.path.join(LIB, "bin", "libhdf.a")]
        lines.append("build %s: link %s %s" % (H4MC, " ".join(objs), " ".join(libs)))
        lines.append("default %s" % H4MC)
        nf = os.path.join(BUILD, "engine.ninja")
        new = "\n".join(lines) + "\n"
        if not os.path.exists(nf) or open(nf).read() != new:
            with open(nf, "w") as f:
                f.write(new)
        r = run(["ninja", "-f", nf, "-C", BUILD], stdout=subprocess.PIPE, stderr=subprocess.STDOUT, text=True)
        if r.returncode != 0:
            log(r.stdout[-8000:])
            raise SystemExit("HARNESS-ERROR: engine build failed")
        log("build ok (%.1fs)" % (time.time() - t0))


def load_known():
    p = os.path.join(ROOT, "known_findings.json")
    if not os.path.exists(p):
        return []
    with open(p) as f:
        return json.load(f).get("findings", [])


def match_known(prop, sig, known):
    for k in known:
        if k.get("property") != prop or k.get("status") != "known":
            continue
        for pat in k.get("signatures", []):
            if re.fullmatch(pat, sig):
                return k
    return None


def write_evidence(prop, tier, seed, stats, viols, unknown, knownhits, wall, extra_assumptions=()):
    level = LEVELS[prop]
    samples = []
    sp = os.path.join(stats["_outdir"], "samples.jsonl")
    if os.path.exists(sp):
        for line in open(sp):
            try:
                samples.append(json.loads(line))
            except Exception:
                pass
    counters = stats.get("counters", {})
    rounds = stats.get("rounds", [])
    exhaustive = not stats.get("deadline_hit", 0)
    cov = {
        "exhaustive": bool(exhaustive),
        "samples": samples[:12] or ["(no sample recorded)"],
        "distinct_observed_outcomes": stats.get("distinct_outcomes", 0),
        "rounds": rounds,
        "mechanism_counters": counters,
        "workers": stats.get("workers"),
        "violation_signatures": stats.get("signatures", {}),
        "known_findings_hit": sorted(set(k["id"] for k in knownhits)),
    }
    if level == "model_checking":
        cov.update({
            "states": int(stats.get("states", 0)),
            "transitions": int(stats.get("transitions", 0)),
            "traces_validated_against_impl": int(stats.get("traces", 0)),
            "max_depth": stats.get("max_depth", 0),
            "pruned_revisits": stats.get("pruned", 0),
            "rule": counters.get("_rule", "every operation of the alphabet enabled in every reached state up to the depth/deviation bound; "
                                 "each transition executes the real library and is compared with the reference model; "
                                 "states deduplicated by (model, file bytes, handle positions) key"),
        })
        if stats.get("cases", 0):
            cov["evaluations"] = int(stats.get("cases", 0))
    else:
        cases = int(counters.get("evaluations", 0)) or int(stats.get("cases", 0)) or int(stats.get("transitions", 0))
        cov.update({
            "evaluations": cases,
            "distinct_nontrivial": int(counters.get("distinct_nontrivial", stats.get("distinct_outcomes", 0))),
            "rule": stats.get("rule", "") or "see DESIGN.md section for %s" % prop,
        })
        if stats.get("states", 0):
            cov["states"] = int(stats["states"])
            cov["transitions"] = int(stats["transitions"])
    rule = stats.get("rule_text")
    if rule:
        cov["rule"] = rule
    for k in ("evaluations", "distinct_nontrivial", "_rule"):
        counters.pop(k, None)
    ev = {
        "property_id": prop, "tier": tier, "seed": seed, "level": level, "coverage": cov,
        "assumptions": [
            "x86-64 little-endian, glibc; gcc AddressSanitizer build of the current working tree of " + REPO,
            "all HDF file I/O goes through the in-memory stdio layer (engine/vfs.c), checked against glibc by `h4mc VFS quick`",
            "bounds as listed in coverage.rounds / DESIGN.md; nothing is claimed beyond the completed bound",
        ] + list(extra_assumptions),
        "wall_s": round(wall, 2),
        "violations": len(unknown),
    }
    os.makedirs(os.path.join(ROOT, "evidence"), exist_ok=True)
    with open(os.path.join(ROOT, "evidence", prop + ".json"), "w") as f:
        json.dump(ev, f, indent=1)


def run_check(prop, tier):
    seed = int(os.environ.get("VERIF_SEED", "0") or 0)
    t0 = time.time()
    build(tools=prop in ("C18", "C19"))
    outdir = os.path.join(BUILD, "run", "%s.%s" % (prop, tier))
    shutil.rmtree(outdir, ignore_errors=True)
    os.makedirs(outdir, exist_ok=True)
    env = dict(os.environ)
    env.setdefault("VERIF_DEADLINE_S", "900" if tier == "thorough" else "240")
    env["VERIF_TOOLS_BIN"] = os.path.join(LIB, "bin")
    env["VERIF_REPO"] = REPO
    env["VERIF_ROOT"] = ROOT
    r = run([H4MC, prop, tier, "--out", outdir], env=env, stdout=subprocess.PIPE, stderr=subprocess.PIPE, text=True,
            errors="replace")
    sys.stderr.write(r.stderr[-20000:])
    wall = time.time() - t0
    sp = os.path.join(outdir, "stats.json")
    if not os.path.exists(sp):
        log(r.stdout[-4000:])
        print("HARNESS-ERROR property=%s h4mc exited %d without stats" % (prop, r.returncode))
        return 2
    stats = json.load(open(sp))
    stats["_outdir"] = outdir
    rt = os.path.join(outdir, "rule.txt")
    if os.path.exists(rt):
        stats["rule_text"] = open(rt).read().strip()
    viols = []
    vp = os.path.join(outdir, "violations.jsonl")
    if os.path.exists(vp):
        for line in open(vp, errors="replace"):
            line = line.strip()
            if not line:
                continue
            try:
                viols.append(json.loads(line))
            except Exception as e:
                viols.append({"prop": prop, "sig": "unparsable-record", "detail": line[:300], "config": [], "ops": []})
    known = load_known()
    unknown, knownhits = [], []
    seen_known = set()
    for v in viols:
        k = match_known(prop, v["sig"], known)
        if k:
            knownhits.append(k)
            if k["id"] not in seen_known:
                seen_known.add(k["id"])
                print("KNOWN-FINDING: property=%s %s" % (prop, k["description"]))
        else:
            unknown.append(v)
    # signatures counted but not recorded (dedupe beyond 3) are all represented by their first records
    rc = 0
    if unknown:
        rdir = os.path.join(ROOT, "replays", prop)
        os.makedirs(rdir, exist_ok=True)
        done = set()
        for v in unknown:
            if v["sig"] in done:
                continue
            done.add(v["sig"])
            name = hashlib.sha1(v["sig"].encode()).hexdigest()[:10] + ".json"
            path = os.path.join(rdir, name)
            with open(path, "w") as f:
                json.dump(v, f, indent=1)
            print("VIOLATION property=%s replay=%s" % (prop, path))
            print("  signature: %s" % v["sig"])
            print("  detail: %s" % v["detail"][:600].replace("\n", " | "))
            if v.get("ops_desc"):
                print("  config: %s" % v.get("config_desc"))
                print("  trace: %s" % "; ".join(v["ops_desc"]))
            elif v.get("case"):
                print("  case: %s" % v["case"])
        rc = 1
    write_evidence(prop, tier, seed, stats, viols, unknown, knownhits, wall)
    if stats.get("harness_errors", 0) or r.returncode not in (0,):
        if rc == 0:
            print("HARNESS-ERROR property=%s (h4mc rc=%d, harness_errors=%s)" % (prop, r.returncode, stats.get("harness_errors")))
            rc = 2
    st = "states=%s transitions=%s traces=%s cases=%s outcomes=%s wall=%.1fs exhaustive=%s" % (
        stats.get("states"), stats.get("transitions"), stats.get("traces"), stats.get("cases"),
        stats.get("distinct_outcomes"), wall, not stats.get("deadline_hit"))
    print("%s %s %s: %s" % (prop, tier, "OK" if rc == 0 else "FAILED", st))
    return rc


def main():
    if len(sys.argv) >= 2 and sys.argv[1] == "build":
        build(tools=True)
        return 0
    if len(sys.argv) >= 4 and sys.argv[1] == "replay":
        build(tools=sys.argv[2] in ("C18", "C19"))
        env = dict(os.environ)
        env["VERIF_TOOLS_BIN"] = os.path.join(LIB, "bin")
        env["VERIF_REPO"] = REPO
        env["VERIF_ROOT"] = ROOT
        outdir = os.path.join(BUILD, "run", "%s.replay" % sys.argv[2])
        os.makedirs(outdir, exist_ok=True)
        r = run([H4MC, sys.argv[2], "replay", sys.argv[3], "--out", outdir], env=env)
        return r.returncode
    if len(sys.argv) != 3:
        print(__doc__)
        return 2
    return run_check(sys.argv[1], sys.argv[2])


if __name__ == "__main__":
    sys.exit(main())
